import Lean.Data.Json
import Driver.Common
/-!
driver commands (C12):

* `hiddeninv`            → the model's inventory of process-global state, `[[item, kind], …]`
* `hidden <compact json>` → run a history of abstract ops from a given hidden state; for every op the
  predicted accesses of the mode variable (writes in order, who read it before the first write) and the
  hidden state afterwards; for the probe additionally whether its observations differ from those of a
  fresh process (`dependsOnHistory`) and whether each repeated `schedule()` changes anything.
-/
namespace SPD
open SP.Hidden Lean

def hiddenCmds : List String := ["hiddeninv", "hidden"]

private def jNat (j : Json) (k : String) (d : Nat := 0) : Nat :=
  match j.getObjVal? k with
  | .ok v => (v.getNat?.toOption).getD d
  | _ => d

private def jBool (j : Json) (k : String) (d : Bool := false) : Bool :=
  match j.getObjVal? k with
  | .ok v => (v.getBool?.toOption).getD d
  | _ => d

private def jStr (j : Json) (k : String) (d : String := "") : String :=
  match j.getObjVal? k with
  | .ok v => (v.getStr?.toOption).getD d
  | _ => d

private def jArr (j : Json) (k : String) : List Json :=
  match j.getObjVal? k with
  | .ok v => match v.getArr? with
    | .ok a => a.toList
    | _ => []
  | _ => []

private def jStrs (l : List Json) : List String := l.filterMap (fun x => x.getStr?.toOption)

private def jOptNat (j : Json) (k : String) : Option Nat :=
  match j.getObjVal? k with
  | .ok v => v.getNat?.toOption
  | _ => none

def textOfJson (j : Json) : TextAbs :=
  let attrs := jStrs (jArr j "attrs")
  { lexOk := jBool j "lexOk" true,
    build := attrs.map .set ++ List.replicate (jNat j "rootInits") .rootInit ++
             List.replicate (jNat j "nres") .resInit ++ attrs.map .inheritRead,
    props := jNat j "props",
    hasTasks := jBool j "hasTasks" true,
    scens := (jArr j "scens").map (fun s => { warns := match s.getArr? with | .ok a => jStrs a.toList | _ => [] }),
    reportSets := jNat j "reportSets" }

def phaseOf (s : String) : Option Phase :=
  if s == "prepare" then some .prepare else if s == "sched" then some .sched
  else if s == "finish" then some .finish else none

/-- a request op: a model op, or a `schedule()` interrupted in the pass of its n-th still pending scenario
    (resolved against the kept project when it is executed) -/
inductive RawOp
  | op (o : Op) (warns : List (List String))
  | schedPass (slot n : Nat) (ph : Phase) (warns : List (List String))

/-- the warnings of the passes a `schedule()` call starts are an input (abstract outcome of the scheduler
    core): write them into the kept project's text abstraction, i-th list → i-th still pending scenario -/
def setWarns (w : World) (slot : Nat) (ws : List (List String)) : World :=
  match w.slots.lookup slot with
  | none => w
  | some p =>
    let pend := (List.range p.t.scens.length).filter (fun i => !(p.done.getD i false))
    let scens := (List.range p.t.scens.length).map (fun i =>
      let s := p.t.scens.getD i {}
      match pend.idxOf? i with
      | some k => if k < ws.length then { s with warns := ws.getD k [] } else s
      | none => s)
    w.put (some slot) { p with t := { p.t with scens := scens } } w.h

def nthPending (scens : Nat) (done : List Bool) (n : Nat) : Nat :=
  (((List.range scens).filter (fun i => !(done.getD i false))).getD n scens)

def resolve (w : World) : RawOp → World × Op
  | .op (.schedule slot f) ws => (setWarns w slot ws, .schedule slot f)
  | .op o _ => (w, o)
  | .schedPass slot n ph ws =>
    let w' := setWarns w slot ws
    match w'.slots.lookup slot with
    | some p => (w', .schedule slot (some (nthPending p.t.scens.length p.done n, ph)))
    | none => (w', .schedule slot none)

def opOfJson (j : Json) : Option Op :=
  let k := jStr j "k"
  let t := match j.getObjVal? "t" with | .ok v => textOfJson v | _ => {}
  if k == "run" then some (.run t (jOptNat j "keep"))
  else if k == "parse" then some (.parseOnly t (jOptNat j "keep"))
  else if k == "fail" then
    let a := jStr j "at"
    if a == "lex" then some (.failRun t .lex)
    else if a == "afterNew" then some (.failRun t .afterNew)
    else if a == "build" then some (.failRun t (.build (jNat j "n")))
    else if a == "schedTop" then some (.failRun t .schedTop)
    else match phaseOf a with
      | some ph => some (.failRun t (.scen (jNat j "sc") ph))
      | none => none
  else if k == "sched" then some (.schedule (jNat j "slot") none)
  else if k == "report" then some (.report (jNat j "slot"))
  else none

def rawOfJson (j : Json) : Option RawOp :=
  let ws := (jArr j "warns").map (fun s => match s.getArr? with | .ok a => jStrs a.toList | _ => [])
  if jStr j "k" == "sched" then
    match j.getObjVal? "failAt" with
    | .ok (.str a) => match phaseOf a with
      | some ph => some (.schedPass (jNat j "slot") (jNat j "scPass") ph ws)
      | none => none
    | _ => (opOfJson j).map (fun o => .op o ws)
  else (opOfJson j).map (fun o => .op o [])

def nonDefaultCfg : MhCfg := { abortOnWarning := true }

def stateOfJson (j : Json) : HState :=
  { mode := jNat j "mode", cacheInst := jBool j "cacheInst", cacheLen := jNat j "cacheLen",
    mhInst := jBool j "mhInst", msgs := List.replicate (jNat j "msgs") "?", errors := jNat j "errors",
    cfg := if jBool j "cfgDefault" true then {} else nonDefaultCfg, tz := jStr j "tz" "UTC" }

def dedupSorted (l : List String) : List String :=
  let a := l.toArray.qsort (· < ·)
  a.toList.eraseDups

def stateJson (before : HState) (h : HState) : List (String × Json) :=
  [("mode", toJson h.mode), ("cacheInst", toJson h.cacheInst), ("cacheLen", toJson h.cacheLen),
   ("mhInst", toJson h.mhInst), ("newMsgs", toJson (h.msgs.drop before.msgs.length)),
   ("errors", toJson h.errors), ("tz", toJson h.tz), ("cfgDefault", toJson (decide (h.cfg = ({} : MhCfg))))]

def countTz (o : List Obs) : Nat := (o.filter (fun x => match x with | .tz _ => true | _ => false)).length
def countCfg (o : List Obs) : Nat := (o.filter (fun x => match x with | .warnCfg _ => true | _ => false)).length
def countModeR (e : List Ev) : Nat := (e.filter (fun x => match x with | .modeR _ => true | _ => false)).length

/-- which hidden components the op read / wrote -/
def accessJson (before after : HState) (obs : List Obs) (evs : List Ev) : List (String × Json) :=
  let reads := (if countModeR evs > 0 then ["mode"] else []) ++ (if countTz obs > 0 then ["tz"] else []) ++
               (if countCfg obs > 0 then ["mhCfg"] else []) ++
               (if decide (before.cacheInst = false ∧ after.cacheInst = true) then ["cacheInst"] else [])
  let writes := (if (modeWrites evs).length > 0 then ["mode"] else []) ++
                (if decide (before.cacheInst ≠ after.cacheInst) then ["cacheInst"] else []) ++
                (if decide (before.mhInst ≠ after.mhInst) then ["mhInst"] else []) ++
                (if decide (before.msgs ≠ after.msgs) then ["mhLog"] else [])
  [("reads", toJson reads), ("writesTo", toJson writes), ("tzReads", toJson (countTz obs)), ("cfgReads", toJson (countCfg obs))]

def opJson (w : World) (r : World × List Obs × List Ev) : Json :=
  Json.mkObj (stateJson w.h r.1.h ++ accessJson w.h r.1.h r.2.1 r.2.2 ++
    [("writes", toJson (modeWrites r.2.2)), ("rbw", toJson (dedupSorted (readsBeforeWrite r.2.2))),
     ("obs", toJson r.2.1.length)])

partial def runOps (w : World) : List RawOp → List Json → World × List Json
  | [], acc => (w, acc.reverse)
  | o :: os, acc =>
    let (w', o') := resolve w o
    let r := step w' o'
    runOps r.1 os (opJson w r :: acc)

def probeSlot : Nat := 1000000

def handleHiddenJson (j : Json) : Json :=
  let h0 := match j.getObjVal? "init" with | .ok v => stateOfJson v | _ => {}
  let w0 : World := { h := h0 }
  let ops := (jArr j "ops").map rawOfJson
  if ops.any Option.isNone then Json.str "bad-op" else
  let (w1, recs) := runOps w0 (ops.filterMap id) []
  let t := match j.getObjVal? "probe" with | .ok v => textOfJson v | _ => {}
  let again := jNat j "again"
  -- the probe: run (kept), reports, then `again` × (schedule, reports)
  let rRun := step w1 (.run t (some probeSlot))
  let rRep := step rRun.1 (.report probeSlot)
  let fresh : World := {}
  let dep := decide (obsRun w1 t ≠ obsRun fresh t)
  let rec loop (w : World) (n : Nat) (acc : List Json) : World × List Json :=
    match n with
    | 0 => (w, acc.reverse)
    | n + 1 =>
      let r := step w (.schedule probeSlot none)
      let r2 := step r.1 (.report probeSlot)
      let changed := decide ((r.1.slots.lookup probeSlot).map (fun p => (p.done, p.runs)) ≠
                             (w.slots.lookup probeSlot).map (fun p => (p.done, p.runs)))
      let e := Json.mkObj (stateJson w.h r.1.h ++
        [("writes", toJson (modeWrites r.2.2)), ("rbw", toJson (dedupSorted (readsBeforeWrite r.2.2))),
         ("obs", toJson r.2.1.length), ("resultChanges", toJson changed),
         ("reportRbw", toJson (dedupSorted (readsBeforeWrite r2.2.2)))])
      loop r2.1 n (e :: acc)
  let (_, agains) := loop rRep.1 again []
  Json.mkObj [
    ("ops", Json.arr recs.toArray),
    ("probe", Json.mkObj (stateJson w1.h rRun.1.h ++ accessJson w1.h rRun.1.h rRun.2.1 rRun.2.2 ++
      [("writes", toJson (modeWrites rRun.2.2)), ("rbw", toJson (dedupSorted (readsBeforeWrite rRun.2.2))),
       ("obs", toJson rRun.2.1.length), ("obsFresh", toJson (obsRun fresh t).length),
       ("dependsOnHistory", toJson dep),
       ("reportRbw", toJson (dedupSorted (readsBeforeWrite rRep.2.2))),
       ("reportWrites", toJson (modeWrites rRep.2.2)),
       ("again", Json.arr agains.toArray)]))]

def handleHidden (toks : List String) : String :=
  match toks with
  | ["hiddeninv"] =>
    (Json.arr (inventory.map (fun p => Json.arr #[Json.str p.1, Json.str p.2])).toArray).compress
  | "hidden" :: rest =>
    match Json.parse (" ".intercalate rest) with
    | .ok j => (handleHiddenJson j).compress
    | .error _ => "bad-op"
  | _ => "bad-op"

end SPD
