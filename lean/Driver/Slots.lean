import Driver.Common
/-! driver commands: civil, idx2t, t2idx, size, pidx2t, pt2idx, scan -/
namespace SPD
open SP

def slotsCmds : List String := ["civil", "idx2t", "t2idx", "size", "pidx2t", "pt2idx", "scan", "scanw"]

def handleSlots (toks : List String) : String :=
  match toks with
  | ["civil", d] =>
    match parseInt? d with
    | some d =>
      let (y, m, dd) := civilFromDays d
      let (iy, iw) := isoYearWeek d
      s!"{y} {m} {dd} {weekdayOfDay d} {iy} {iw} {daysFromCivil y m dd}"
    | none => "bad-op"
  | ["idx2t", impl, s, e, g, i, f] =>
    match ints? [s, e, g, i], parseBool? f with
    | some [s, e, g, i], some f =>
      if g ≤ 0 then "bad-op" else
      let b : Board := ⟨s, e, g⟩
      if impl == "py" then showRes (pyIdxToDate b i f)
      else if impl == "cy" then showRes (cyIdxToDate b i f) else "bad-op"
    | _, _ => "bad-op"
  | ["t2idx", impl, s, e, g, t, f] =>
    match ints? [s, e, g, t], parseBool? f with
    | some [s, e, g, t], some f =>
      if g ≤ 0 then "bad-op" else
      let b : Board := ⟨s, e, g⟩
      if impl == "py" then showRes (pyDateToIdx b t f)
      else if impl == "cy" then showRes (cyDateToIdx b t f) else "bad-op"
    | _, _ => "bad-op"
  | ["size", s, e, g] =>
    match ints? [s, e, g] with
    | some [s, e, g] => if g ≤ 0 then "bad-op" else s!"{(Board.mk s e g).size}"
    | _ => "bad-op"
  | ["pidx2t", impl, s, g, i] =>
    match ints? [s, g, i] with
    | some [s, g, i] =>
      if g ≤ 0 then "bad-op" else
      if impl == "py" then s!"ok {(Grid.mk s g).time i}"
      else if impl == "cy" then showRes (cyProjIdxToDate ⟨s, g⟩ i) else "bad-op"
    | _ => "bad-op"
  | ["pt2idx", impl, s, g, t] =>
    match ints? [s, g, t] with
    | some [s, g, t] =>
      if g ≤ 0 then "bad-op" else
      if impl == "py" then s!"ok {(Grid.mk s g).idx t}"
      else if impl == "cy" then showRes (cyProjDateToIdx ⟨s, g⟩ t) else "bad-op"
    | _ => "bad-op"
  | ["scan", impl, pat, s, e, m] =>
    match parsePat pat, ints? [s, e], parseNat? m with
    | some pat, some [s, e], some m =>
      if m == 0 || s < 0 || e < 0 || s ≥ pat.length || e ≥ pat.length then "bad-op" else
      if impl == "py" then "iv " ++ showPairs (pyScan pat s e m)
      else if impl == "cy" then "iv " ++ showPairs (cyScan pat s e m) else "bad-op"
    | _, _, _ => "bad-op"
  | ["scanw", impl, pat, s, so, e, eo, m] =>
    -- a query window whose ends lie inside slots: `collectIntervals` turns both ends into slot indices with `dateToIdx`
    -- (the floor, C17's conversion theorems), so the answer is that of the window of whole slots [s, e]
    match parsePat pat, ints? [s, so, e, eo], parseNat? m with
    | some pat, some [s, so, e, eo], some m =>
      if m == 0 || s < 0 || e < 0 || s ≥ pat.length || e ≥ pat.length || so < 0 || so ≥ 3600 || eo < 0 || eo ≥ 3600 then "bad-op" else
      if impl == "py" then "iv " ++ showPairs (pyScan pat s e m)
      else if impl == "cy" then "iv " ++ showPairs (cyScan pat s e m) else "bad-op"
    | _, _, _ => "bad-op"
  | _ => "bad-op"


end SPD
