import Driver.Common
import Lean.Data.Json
/-!
driver commands for C15 (spellings):
  resolve  <json>   {"f": forest, "src": [i,…], "ref": "…"}          → `some i.j.k` | `none`   (repaired code)
  resolvep <json>   same, pinned root search (before F10)
  deps     <json>   {"f": forest, "dep": pend, "prec": pend}           → per task the `depends` list (repaired)
  depsp    <json>   same, pinned `_resolve_precedes` (before F10/F11)
  macro    <cap|-> <text> <pstart> <pend> <now> <today>                → `ok x<hex>` | `too-large`
  mdefs    <text>                                                      → extracted definitions and remaining text
  strip    <text>                                                      → `strip_shell_comments`
forest = [tree,…], tree = [id, [tree,…]];  pend = [[src, [[ref, gd|null, gl|null, mg|null, onstart, onend],…]],…]
texts are hex (two digits per ASCII character) prefixed with `x`; `-` = None.
-/
namespace SPD
open SP SP.Resolve SP.Macro Lean

partial def treeOfJson : Json → Option (TTree (List Char))
  | .arr a =>
    match a.toList with
    | [.str id, .arr kids] => do
      let ks ← kids.toList.mapM treeOfJson
      some (.node id.toList ks)
    | _ => none
  | _ => none

def forestOfJson : Json → Option (Forest (List Char))
  | .arr a => a.toList.mapM treeOfJson
  | _ => none

def posOfJson : Json → Option Pos
  | .arr a => a.toList.mapM (fun j => match j.getNat? with | .ok n => some n | .error _ => none)
  | _ => none

def optStr : Json → Option (Option String)
  | .null => some none
  | .str s => some (some s)
  | _ => none

def boolOfJson : Json → Option Bool
  | .bool b => some b
  | _ => none

def itemOfJson : Json → Option DepItem
  | .arr a =>
    match a.toList with
    | [.str ref, gd, gl, mg, os, oe] => do
      let gd ← optStr gd
      let gl ← optStr gl
      let mg ← optStr mg
      let os ← boolOfJson os
      let oe ← boolOfJson oe
      some { ref := ref.toList, opts := { gapduration := gd, gaplength := gl, maxgapduration := mg, onstart := os, onend := oe } }
    | _ => none
  | _ => none

def pendOfJson : Json → Option (List (Pos × List DepItem))
  | .arr a => a.toList.mapM (fun j =>
      match j with
      | .arr b =>
        match b.toList with
        | [p, .arr items] => do
          let p ← posOfJson p
          let its ← items.toList.mapM itemOfJson
          some (p, its)
        | _ => none
      | _ => none)
  | _ => none

def showPos (p : Pos) : String := ".".intercalate (p.map toString)

def showOptPos : Option Pos → String
  | some p => "some " ++ showPos p
  | none => "none"

def showOS : Option String → String
  | some s => s
  | none => "-"

def showEntry : DepEntry → String
  | .bare t => "b" ++ showPos t
  | .dict t o => "d" ++ showPos t ++ "/" ++ showOS o.gapduration ++ "/" ++ showOS o.gaplength ++ "/" ++
      showOS o.maxgapduration ++ "/" ++ (if o.onstart then "1" else "0") ++ "/" ++ (if o.onend then "1" else "0")

def showStore (F : Forest (List Char)) (st : DepStore) : String :=
  " ".intercalate ((preorder F).map (fun p => showPos p.1 ++ "=" ++ ",".intercalate ((getDeps st p.1).map showEntry)))

def hexVal (c : Char) : Option Nat :=
  if '0' ≤ c ∧ c ≤ '9' then some (c.toNat - '0'.toNat)
  else if 'a' ≤ c ∧ c ≤ 'f' then some (c.toNat - 'a'.toNat + 10)
  else none

def unhexGo : List Char → Option (List Char)
  | [] => some []
  | [_] => none
  | a :: b :: rest => do
    let x ← hexVal a
    let y ← hexVal b
    let n := 16 * x + y
    if n ≥ 128 then none else
    let r ← unhexGo rest
    some (Char.ofNat n :: r)

/-- `x<hex>` -/
def unhex (s : String) : Option (List Char) :=
  match s.toList with
  | 'x' :: r => unhexGo r
  | _ => none

def optUnhex (s : String) : Option (Option (List Char)) :=
  if s == "-" then some none else (unhex s).map some

def hexDigit (n : Nat) : Char :=
  if n < 10 then Char.ofNat ('0'.toNat + n) else Char.ofNat ('a'.toNat + n - 10)

def hex (s : List Char) : String :=
  String.ofList ('x' :: s.flatMap (fun c => [hexDigit (c.toNat / 16 % 16), hexDigit (c.toNat % 16)]))

def showOutcome : Outcome → String
  | .ok t => "ok " ++ hex t
  | .tooLarge => "too-large"

/-- the dict `_macros` as Python shows it: keys in first-insertion order, last value -/
def effDefs (ds : Defs) : Defs :=
  (ds.map (·.1)).eraseDups.filterMap (fun n => (lookup ds n).map (fun b => (n, b)))

def validSrc (F : Forest (List Char)) (p : Pos) : Bool := (node? F p).isSome

def spellCmds : List String := ["resolve", "resolvep", "deps", "depsp", "macro", "mdefs", "strip", "blank"]

def handleSpell (toks : List String) : String :=
  match toks with
  | [cmd, js] =>
    if cmd == "mdefs" then
      match unhex js with
      | some t =>
        let r := extractMacros t
        "defs " ++ ",".intercalate ((effDefs r.1).map (fun d => hex d.1 ++ ":" ++ hex d.2)) ++ " rest " ++ hex r.2
      | none => "bad-op"
    else if cmd == "strip" then
      match unhex js with
      | some t => "ok " ++ hex (stripShellComments t)
      | none => "bad-op"
    else if cmd == "blank" then
      match unhex js with
      | some t => "ok " ++ hex (blankComments t)
      | none => "bad-op"
    else
    match Json.parse js with
    | .error _ => "bad-op"
    | .ok j =>
      match (j.getObjVal? "f").toOption.bind forestOfJson with
      | none => "bad-op"
      | some F =>
        if cmd == "resolve" || cmd == "resolvep" then
          match (j.getObjVal? "src").toOption.bind posOfJson, (j.getObjVal? "ref").toOption.bind (fun r => r.getStr?.toOption) with
          | some src, some ref =>
            if !validSrc F src then "bad-op"
            else if ref.toList.any (fun c => c.toNat ≥ 128) then "bad-op"
            else if cmd == "resolve" then showOptPos (resolveStr F src ref.toList)
            else showOptPos (resolveStrPinned F src ref.toList)
          | _, _ => "bad-op"
        else if cmd == "deps" || cmd == "depsp" then
          match (j.getObjVal? "dep").toOption.bind pendOfJson, (j.getObjVal? "prec").toOption.bind pendOfJson with
          | some pd, some pp =>
            if !(pd ++ pp).all (fun p => validSrc F p.1) then "bad-op"
            else if cmd == "deps" then "deps " ++ showStore F (finalDeps F pd pp)
            else
              let st0 := pd.foldl (fun st pi =>
                let r := pi.2.filterMap (fun it => (resolveStrPinned F pi.1 it.ref).map (fun t => mkEntry t it.opts))
                if r.isEmpty then st else extendDeps st pi.1 r) emptyStore
              "deps " ++ showStore F (pp.foldl (fun st pi => pi.2.foldl (fun st it => precedeOnePinned F st pi.1 it) st) st0)
          | _, _ => "bad-op"
        else "bad-op"
  | ["macro", cap, text, ps, pe, nw, td] =>
    let cap? : Option (Option Nat) := if cap == "-" then some none else cap.toNat?.map some
    match cap?, unhex text, optUnhex ps, optUnhex pe, optUnhex nw, unhex td with
    | some cap, some text, some ps, some pe, some nw, some td =>
      showOutcome (processText { projectStart := ps, projectEnd := pe, nowAttr := nw, today := td } cap text)
    | _, _, _, _, _, _ => "bad-op"
  | _ => "bad-op"

end SPD
