import Driver.Common
import Model.Calendar
/-! driver commands: `whon py|cy <hours> <weekday> <minute>`, `whdaily <hours> <weekday>`;
    hours = seven `/`-separated day fields, each a `,`-separated list of `start-end` minutes (may be empty) -/
namespace SPD
open SP

def whCmds : List String := ["whon", "whdaily"]

def parseIv (s : String) : Option (Int × Int) :=
  match s.splitOn "-" with
  | [a, b] => match a.toInt?, b.toInt? with
    | some a, some b => some (a, b)
    | _, _ => none
  | _ => none

def parseHours (s : String) : Option Hours :=
  let days := s.splitOn "/"
  if days.length != 7 then none
  else (days.mapM (fun d => if d == "" then some [] else (d.splitOn ",").mapM parseIv)).map (fun ds => { days := ds })

def handleWh (toks : List String) : String :=
  match toks with
  | ["whon", impl, hs, wd, m] =>
    match parseHours hs, wd.toInt?, m.toInt? with
    | some h, some wd, some m =>
      if wd < 0 || wd > 6 || m < 0 || m ≥ 1440 then "bad-op"
      else if impl == "py" then (if h.on wd m then "1" else "0")
      else if impl == "cy" then (if h.onCy wd m then "1" else "0") else "bad-op"
    | _, _, _ => "bad-op"
  | ["whdaily", hs, wd] =>
    match parseHours hs, wd.toInt? with
    | some h, some wd => if wd < 0 || wd > 6 then "bad-op" else s!"{h.dailyMinutes wd}"
    | _, _ => "bad-op"
  | _ => "bad-op"

end SPD
