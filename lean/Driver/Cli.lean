import Driver.Common
/-!
driver commands for the `cli` stream (C19/C20):

  cli <v4> <class> <channel> <fmt> <fault> <out> <ureports> [ignored…]
      v4       four 0/1 digits: f17 f18 f26 f43 (1111 = repaired, 0000 = pinned)
      class    valid | unsched (= valid: the engine succeeds) | missing | dir | empty | blank |
               syntax (= the engine fails)
      channel  file | stdin          fmt  json | csv
      fault    none | stdinMkstemp | stdinWrite | readInput | mkdtemp | copyRead | mkstempAuto |
               copyWrite | engineRaise | engineNoOutput | readReport | echo
      out      - | new | exists | force | newforce        (`-o`, `--force`)
      ureports - | comma list of <kind><fmts>, kind p(lain) s(ubdir) e(scaping `..`) a(bsolute), fmts j c b(oth)
  answer: exit <n> out <none|auto|user|any> id <hash|none> left <-|classes> ofile <-|written>

  cliexits   answer: the handler → exit code map of the model
-/
namespace SPD
open SP.Cli

def cliCmds : List String := ["cli", "cliexits"]

def parseVariant (s : String) : Option Variant :=
  match s.toList with
  | [a, b, c, d] =>
    let bit (x : Char) : Option Bool := if x == '1' then some true else if x == '0' then some false else none
    match bit a, bit b, bit c, bit d with
    | some a, some b, some c, some d => some ⟨a, b, c, d⟩
    | _, _, _, _ => none
  | _ => none

def parseFault : String → Option Fault
  | "none" => some .none | "stdinMkstemp" => some .stdinMkstemp | "stdinWrite" => some .stdinWrite
  | "readInput" => some .readInput | "mkdtemp" => some .mkdtemp | "copyRead" => some .copyRead
  | "mkstempAuto" => some .mkstempAuto | "copyWrite" => some .copyWrite | "engineRaise" => some .engineRaise
  | "engineNoOutput" => some .engineNoOutput | "readReport" => some .readReport | "echo" => some .echo
  | _ => none

def parseReport (i : Nat) (s : String) : Option RSpec :=
  match s.toList with
  | [k, f] =>
    let fmts : Option (List Fmt) :=
      if f == 'j' then some [.json] else if f == 'c' then some [.csv] else if f == 'b' then some [.json, .csv] else none
    let nm : Option Name :=
      if k == 'p' then some (s!"r{i}").toList
      else if k == 's' then some (s!"sub/r{i}").toList
      else if k == 'e' then some (s!"../esc{i}").toList
      else if k == 'a' then some (s!"/abs/out{i}").toList
      else none
    match fmts, nm with
    | some fmts, some nm => some { id := (s!"u{i}").toList, name := nm, fmts := fmts }
    | _, _ => none
  | _ => none

def parseReports (s : String) : Option (List RSpec) :=
  if s == "-" then some []
  else
    let items := s.splitOn ","
    (List.range items.length).zip items |>.mapM (fun p => parseReport p.1 p.2)

structure Req where
  v : Variant
  cls : String
  cfg : Config Unit
  env : Env Unit String
  fs0 : FS Unit String

def mkReq (v : Variant) (cls chan fmt fault out : String) (reps : List RSpec) : Option Req := do
  let channel ← if chan == "file" then some Channel.file else if chan == "stdin" then some Channel.stdin else none
  let f ← if fmt == "json" then some Fmt.json else if fmt == "csv" then some Fmt.csv else none
  let flt ← parseFault fault
  let known := ["valid", "unsched", "missing", "dir", "empty", "blank", "syntax"]
  if !known.contains cls then none
  if channel == .stdin && (cls == "missing" || cls == "dir") then none
  let o : Option (Path × Bool) ←
    if out == "-" then some none
    else if out == "new" || out == "exists" then some (some (Path.user 1, false))
    else if out == "force" || out == "newforce" then some (some (Path.user 1, true))
    else none
  let oExists := out == "exists" || out == "force"
  let engineOk := cls == "valid" || cls == "unsched"
  let env : Env Unit String :=
    { H := fun _ => "H", blank := fun _ => cls == "blank" || cls == "empty", empty := fun _ => cls == "empty",
      stdinCopy := fun b => b, engineOk := fun _ => engineOk, reports := fun _ => reps,
      autoBody := fun _ _ => "auto", userBody := fun _ _ _ => "user" }
  let fs0 : FS Unit String := fun p =>
    if p == Path.user 0 then
      (if channel == .stdin || cls == "missing" then none else if cls == "dir" then some .dir else some (.file (.raw ())))
    else if p == Path.user 1 then (if oExists then some (.file (.raw ())) else none)
    else none
  let cfg : Config Unit :=
    { pid := 0, channel := channel, inPath := .user 0, stdin := (), fmt := f, out := o,
      tok := [0xa, 0x1, 0xb, 0x2], fault := flt, dirOrder := [] }
  some { v := v, cls := cls, cfg := cfg, env := env, fs0 := fs0 }

def userFiles (reps : List RSpec) : List Name :=
  reps.flatMap (fun r => r.fmts.map (fun g => fileName r.name g))

def classOfPath : Path → String
  | .tmp _ .stdinCopy => "F_in"
  | .tmp _ .autoCopy => "F_auto"
  | .tmp _ .outDir => "D"
  | .inDir _ _ => "D"
  | .outside _ => "ESC"
  | .user _ => "USER"

def cliDedupSorted (l : List String) : List String :=
  let order := ["D", "ESC", "F_auto", "F_in", "USER"]
  order.filter (fun x => l.contains x)

def answer (r : Req) (order : List Name) : Nat × String × String × List String × Bool :=
  let cfg := { r.cfg with dirOrder := order }
  let res := run r.env r.v cfg r.fs0
  let l := res.1
  let code := l.exit.getD 98
  let outc := match l.stdout with
    | [] => "none"
    | [e] => if e.body == "auto" then "auto" else if e.body == "user" then "user" else "other"
    | _ => "many"
  let idc := match l.stdout with
    | [e] => (match e.reportId with | some "H" => "hash" | some _ => "wrong" | none => "none")
    | _ => "none"
  let left := (leftover l.trace).filter (fun p => p != Path.user 1)
  let ofile := match res.2 (Path.user 1) with
    | some (.file (.final _)) => true
    | _ => false
  (code, outc, idc, cliDedupSorted (left.map classOfPath), ofile)

def showAnswer (a : Nat × String × String × List String × Bool) : String :=
  let left := if a.2.2.2.1.isEmpty then "-" else ",".intercalate a.2.2.2.1
  s!"exit {a.1} out {a.2.1} id {a.2.2.1} left {left} ofile {if a.2.2.2.2 then "written" else "-"}"

def handleCli (toks : List String) : String :=
  match toks with
  | ["cliexits"] =>
    s!"FileNotFoundError={Exc.fnf.code} ReportGenerationError={Exc.gen.code} Exception={Exc.other.code} success=0"
  | "cli" :: v :: cls :: chan :: fmt :: fault :: out :: reps :: _ =>
    match parseVariant v, parseReports reps with
    | some v, some reps =>
      match mkReq v cls chan fmt fault out reps with
      | some r =>
        let auto := fileName r.cfg.rid r.cfg.fmt
        let users := userFiles reps
        let a1 := answer r (auto :: users)
        let a2 := answer r (users ++ [auto])
        if a1 == a2 then showAnswer a1
        else if a1.1 == a2.1 && a1.2.2.2 == a2.2.2.2 then
          showAnswer (a1.1, "any", (if a1.2.2.1 == a2.2.2.1 then a1.2.2.1 else "any"), a1.2.2.2)
        else "order-dependent " ++ showAnswer a1 ++ " | " ++ showAnswer a2
      | none => "bad-op"
    | _, _ => "bad-op"
  | _ => "bad-op"

end SPD
