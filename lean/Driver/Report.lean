import Lean.Data.Json
import Driver.Common
/-!
driver commands of the `report` stream (C18).  The payload is one JSON document without blanks
(the harness escapes blanks inside strings as a unicode escape), so that it survives the token splitter.

* `report <json>`   : scheduled project + report spec → header, body, JSON rendering, CSV rendering
* `repfmt <json>`   : one value + time format → the cell `_format_value` produces
* `reptables`       : the tables of the implementation the model carries (checked against the source)
-/
namespace SPD
open SP SP.Report Lean

def reportCmds : List String := ["report", "repfmt", "reptables"]

private def parseRat? (s : String) : Option Rat :=
  match s.splitOn "/" with
  | [n] => n.toInt?.map (fun n => (n : Rat))
  | [n, d] =>
    match n.toInt?, d.toNat? with
    | some n, some d => if d == 0 then none else some (mkRat n d)
    | _, _ => none
  | _ => none

private def optStr (j : Json) (k : String) : Except String (Option String) := do
  let v ← j.getObjVal? k
  if v.isNull then pure none else (some <$> v.getStr?)

private def optInt (j : Json) (k : String) : Except String (Option Int) := do
  let v ← j.getObjVal? k
  if v.isNull then pure none else (some <$> v.getInt?)

private def ratField (j : Json) (k : String) : Except String Rat := do
  let s ← (← j.getObjVal? k).getStr?
  match parseRat? s with
  | some q => pure q
  | none => throw s!"bad rational {s}"

private def parseValue (j : Json) : Except String Value := do
  let t ← (← j.getObjVal? "t").getStr?
  if t == "none" then pure .none
  else if t == "bool" then .bool <$> (← j.getObjVal? "v").getBool?
  else if t == "time" then .time <$> (← j.getObjVal? "v").getInt?
  else if t == "float" then .float <$> ratField j "v"
  else if t == "int" then .int <$> (← j.getObjVal? "v").getInt?
  else if t == "str" then .str <$> (← j.getObjVal? "v").getStr?
  else if t == "list" then do
    let a ← (← j.getObjVal? "v").getArr?
    .list <$> a.toList.mapM (·.getStr?)
  else throw s!"bad value tag {t}"

private def parseAttrs (j : Json) : Except String (List (String × Value)) := do
  let a ← j.getArr?
  a.toList.mapM (fun e => do
    let p ← e.getArr?
    match p.toList with
    | [k, v] => pure (← k.getStr?, ← parseValue v)
    | _ => throw "bad attribute pair")

private def parseTask (j : Json) : Except String Task := do
  pure {
    id := ← (← j.getObjVal? "id").getStr?
    name := ← (← j.getObjVal? "name").getStr?
    seq := ← (← j.getObjVal? "seq").getNat?
    leaf := ← (← j.getObjVal? "leaf").getBool?
    scheduled := ← (← j.getObjVal? "scheduled").getBool?
    start := ← optInt j "start"
    stop := ← optInt j "end"
    effort := ← parseValue (← j.getObjVal? "effort")
    priority := ← (← j.getObjVal? "priority").getInt?
    scen := ← parseAttrs (← j.getObjVal? "scen")
    plain := ← parseAttrs (← j.getObjVal? "plain") }

private def parseProject (j : Json) : Except String Project := do
  let ts ← (← j.getObjVal? "tasks").getArr?
  let rs ← (← j.getObjVal? "resources").getArr?
  let ls ← (← j.getObjVal? "ledger").getArr?
  pure {
    tasks := ← ts.toList.mapM parseTask
    resources := ← rs.toList.mapM (fun r => do
      pure { id := ← (← r.getObjVal? "id").getStr?, rate := ← ratField r "rate" })
    ledger := ← ls.toList.mapM (fun b => do
      pure { res := ← (← b.getObjVal? "res").getStr?, task := ← (← b.getObjVal? "task").getStr?,
             secs := ← ratField b "secs" }) }

private def parseSpec (j : Json) : Except String Spec := do
  let cs ← (← j.getObjVal? "columns").getArr?
  let fs ← (← j.getObjVal? "formats").getArr?
  pure {
    columns := ← cs.toList.mapM (fun c => do
      pure { id := ← (← c.getObjVal? "id").getStr?, title := ← optStr c "title" })
    timeFormat := ← optStr j "timeFormat"
    projectTimeformat := ← optStr j "projectTimeformat"
    leafTasksOnly := ← (← j.getObjVal? "leafTasksOnly").getBool?
    formats := ← fs.toList.mapM (fun f => do
      let s ← f.getStr?
      if s == "json" then pure Format.json else if s == "csv" then pure Format.csv
      else throw s!"unmodelled format {s}") }

private def errName : CellErr → String
  | .unsupportedDirective => "unsupported-directive"
  | .outOfRange => "out-of-range"
  | .unmodelled => "unmodelled"

private def cellJson : Cell → Json
  | .ok s => Json.str s
  | .error e => Json.mkObj [("err", Json.str (errName e))]

private def rowJson (r : List Cell) : Json := Json.arr (r.map cellJson).toArray

/-- canonicalisation aid (not part of the model): when the exact cost is within 10⁻⁶ cent of a `.2f`
    rounding boundary the double computation of the implementation may land on either side; the
    other neighbour is reported so that the harness can accept it at such ties only -/
private def tieAlt (q : Rat) : Option String :=
  let a := (if q < 0 then -q else q) * 100
  let f := a.floor
  let r := a - (f : Rat)
  let d := if r < 1/2 then 1/2 - r else r - 1/2
  if d ≤ 1 / 1000000 then
    let n := if cents q == f then f + 1 else f
    some ((if q < 0 then "-" else "") ++ toString (n / 100) ++ "." ++ pad2 (n % 100))
  else none

private def ties (p : Project) (s : Spec) : List Json :=
  let rows := prepareTaskList p s.leafTasksOnly
  (rows.zipIdx.map (fun (t, i) =>
    s.columns.zipIdx.filterMap (fun (c, j) =>
      if c.id == "cost" then
        match costValue p t with
        | .float q => (tieAlt q).map (fun alt => Json.arr #[Json.num (i : Int), Json.num (j : Int), Json.str alt])
        | _ => none
      else none))).flatten

private def handleReport (payload : String) : String :=
  match Json.parse payload with
  | .error _ => "bad-op"
  | .ok j =>
    match (do
      let p ← parseProject (← j.getObjVal? "project")
      let s ← parseSpec (← j.getObjVal? "spec")
      pure (p, s) : Except String (Project × Spec)) with
    | .error _ => "bad-op"
    | .ok (p, s) =>
      let tb := generate p s
      let jt := toJson tb
      let rows := prepareTaskList p s.leafTasksOnly
      let files := (renderings p s).map (fun r => match r with | .json _ => Json.str "json" | .csv _ => Json.str "csv")
      (Json.mkObj [
        ("header", Json.arr (tb.header.map Json.str).toArray),
        ("rows", Json.arr (rows.map (fun t => Json.str t.id)).toArray),
        ("body", Json.arr (tb.body.map rowJson).toArray),
        ("jcolumns", Json.arr (jt.columns.map Json.str).toArray),
        ("jdata", Json.arr (jt.data.map (fun rec =>
            Json.arr (rec.map (fun kv => Json.arr #[Json.str kv.1, cellJson kv.2])).toArray)).toArray),
        ("csv", Json.arr ((toCsv tb).map rowJson).toArray),
        ("files", Json.arr files.toArray),
        ("ties", Json.arr (ties p s).toArray),
        ("distinct", Json.bool (decide ((s.columns.map (fun c => (headerCell c).toLower)).Nodup)))
      ]).compress

private def handleFmt (payload : String) : String :=
  match Json.parse payload with
  | .error _ => "bad-op"
  | .ok j =>
    match (do
      let v ← parseValue (← j.getObjVal? "v")
      let f ← (← j.getObjVal? "fmt").getStr?
      pure (v, f) : Except String (Value × String)) with
    | .error _ => "bad-op"
    | .ok (v, f) => (cellJson (formatValue f v)).compress

private def tablesJson : String :=
  (Json.mkObj [
    ("props", Json.arr (propertiesById.map (fun e => Json.arr #[Json.str e.1, Json.str e.2.1, Json.bool e.2.2])).toArray),
    ("defs", Json.arr (taskAttrDefs.map (fun e => Json.arr #[Json.str e.1, Json.bool e.2])).toArray),
    ("special", Json.arr (specialColumns.map Json.str).toArray)]).compress

def handleReports (toks : List String) : String :=
  match toks with
  | ["report", payload] => handleReport payload
  | ["repfmt", payload] => handleFmt payload
  | ["reptables"] => tablesJson
  | _ => "bad-op"

end SPD
