"""exploratory differential campaign (not a registered check): python -m tools.campaign N seed [knob=value …]"""
import collections, json, random, sys
sys.path.insert(0, '/verif')
from harness import core, gen, project_stream

n = int(sys.argv[1]); seed = int(sys.argv[2])
kw = {}
for a in sys.argv[3:]:
    k, v = a.split("=")
    kw[k] = eval(v)
rng = random.Random(seed)
k = gen.Knobs(**kw)
asts = [gen.gen_project(rng, k) for _ in range(n)]
chk = core.Check("CAMPAIGN", "quick", seed)
res = project_stream.run_projects(chk, asts)
chk.impl.close()
feat = collections.Counter()
nd = 0; no = collections.Counter(); crashes = 0; skipped = 0
shown = 0
for r in res:
    feat.update(gen.features(r["ast"]))
    if r["obs"] and "error" in r["obs"]:
        crashes += 1
        if shown < 6: print("ERROR", r["obs"]); print(r["text"]); shown += 1
        continue
    if r["skipped"]: skipped += 1; continue
    if r["diffs"]:
        nd += 1
        if shown < 6:
            print("DIFF", r["diffs"][:4]); print(r["text"]); shown += 1
    for kk, v in r["oracle"].items():
        no[kk] += 1
        if shown < 6:
            print("ORACLE", kk, v[:2]); print(r["text"]); shown += 1
print("projects", n, "disagree", nd, "oracle", dict(no), "errors", crashes, "skipped", skipped)
print(dict(feat))
json.dump([{"text": r["text"], "diffs": r["diffs"], "oracle": r["oracle"], "ast": r["ast"]} for r in res if r["diffs"] or r["oracle"] or (r["obs"] and "error" in r["obs"])], open("/tmp/campaign.json", "w"))
