"""exploratory differential campaign (not a registered check): python -m tools.campaign N seed [knob=value …]"""
import collections, json, random, sys
sys.path.insert(0, '/verif')
from harness import core, gen, project_stream

n = int(sys.argv[1]); seed = int(sys.argv[2])
kw = {}
for a in sys.argv[3:]:
    if a.startswith("show="): continue
    k, v = a.split("=")
    kw[k] = eval(v)
rng = random.Random(seed)
k = gen.Knobs(**kw)
asts = [gen.gen_project(rng, k) for _ in range(n)]
chk = core.Check("CAMPAIGN", "quick", seed)
res = project_stream.run_projects(chk, asts)
chk.impl.close()
import re
feat = collections.Counter()
cats = collections.OrderedDict()
skipped = 0
def norm(m):
    m = re.sub(r"\d+(\.\d+)?", "N", m)
    m = re.sub(r"\b[a-z]+N(\.[a-zN]+)*\b", "T", m)
    return m[:110]
for r in res:
    feat.update(gen.features(r["ast"]))
    if r["obs"] and "error" in r["obs"]:
        cats.setdefault("ERROR " + str(r["obs"])[:100], []).append(r); continue
    if r["skipped"]: skipped += 1; continue
    for d in r["diffs"][:1]:
        cats.setdefault("DIFF " + norm(d), []).append(r)
    for kk, v in r["oracle"].items():
        cats.setdefault("ORACLE " + kk + " " + norm(v[0]), []).append(r)
for c, rs in cats.items():
    print(f"== {len(rs):4d} x {c}")
show = [a for a in sys.argv[3:] if a.startswith("show=")]
for c, rs in cats.items():
    if show and not any(x[5:] in c for x in show): continue
    if not show and c.startswith("ORACLE C03") and "team task" in c: continue
    r = min(rs, key=lambda r: len(r["text"]))
    print("\n#### ", c); print(r["diffs"][:4], {k: v[:2] for k, v in r["oracle"].items()}); print(r["text"])
print("projects", n, "skipped", skipped)
print(dict(feat))
json.dump([{"text": r["text"], "diffs": r["diffs"], "oracle": r["oracle"], "ast": r["ast"]} for r in res if r["diffs"] or r["oracle"] or (r["obs"] and "error" in r["obs"])], open("/tmp/campaign.json", "w"))
