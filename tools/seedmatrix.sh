#!/bin/sh
# usage: tools/seedmatrix.sh "<seeds>" [name glob, e.g. "*c"] — every seeded change against its own property's quick check, for several seeds,
# on the repo snapshot of a `vp run --with-repo` (or on $VERIF_REPO); prints one line per (change, seed)
cd "$(dirname "$0")/.." || exit 2
repo=${VP_RUN_REPO:-${VERIF_REPO:-}}
[ -n "$repo" ] || { echo "needs VP_RUN_REPO or VERIF_REPO (never patches /repo)"; exit 2; }
export VERIF_REPO="$repo"
(cd lean && lake build >/dev/null 2>&1)
for d in seeded/${2:-*}/; do
  name=$(basename "$d")
  prop=$(python3 -c "import json,sys; m=json.load(open('$d/meta.json')); print(m.get('property') or m['properties'][0])" 2>/dev/null || echo "$name" | cut -c1-3)
  git -C "$repo" apply "$PWD/$d/patch.diff" 2>/dev/null || { echo "$name: patch does not apply"; continue; }
  for s in $1; do
    out=$(VERIF_SEED=$s ./check $prop 2>&1 | grep -E '^(OK|VIOLATION|FAULT)' | tail -1)
    echo "$name seed=$s: $out"
  done
  git -C "$repo" checkout -- . ; git -C "$repo" clean -fdq
done
echo matrix-done
