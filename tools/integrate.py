"""merge notes/manifest-<name>.json and notes/findings-<name>.json (written by helper agents) into
MANIFEST.json / known_findings.json.  usage: python tools/integrate.py <name> [Fid=commit ...]"""
import json, sys, os
ROOT = os.path.dirname(os.path.dirname(os.path.abspath(__file__)))
name = sys.argv[1]
commits = dict(a.split("=") for a in sys.argv[2:])
man = json.load(open(f"{ROOT}/MANIFEST.json"))
add = json.load(open(f"{ROOT}/notes/manifest-{name}.json"))
ids = {c["property_id"] for c in man["checks"]}
for c in add.get("checks", []):
    if c["property_id"] in ids:
        man["checks"] = [x for x in man["checks"] if x["property_id"] != c["property_id"]]
    man["checks"].append(c)
man["checks"].sort(key=lambda c: c["property_id"])
claimed = {c["property_id"] for c in man["checks"]}
man["not_applicable"] = [x for x in man.get("not_applicable", []) if x["property_id"] not in claimed]
for e in man.get("engines", []):
    e["serves_properties"] = sorted(set(e.get("serves_properties", [])) | set(add.get("engines_add_serves", {}).get(e["name"], [])))
json.dump(man, open(f"{ROOT}/MANIFEST.json", "w"), indent=1)
kf = json.load(open(f"{ROOT}/known_findings.json"))
fp = f"{ROOT}/notes/findings-{name}.json"
if os.path.exists(fp):
    have = {f["id"] for f in kf["findings"]}
    for f in json.load(open(fp))["findings"]:
        if f["id"] in commits:
            f["commit"] = commits[f["id"]]
            f["line"] = f["line"].replace("<commit>", commits[f["id"]])
        if f["id"] in have:
            kf["findings"] = [x for x in kf["findings"] if x["id"] != f["id"]]
        kf["findings"].append(f)
    json.dump(kf, open(f"{ROOT}/known_findings.json", "w"), indent=1)
print("checks:", sorted(claimed), "findings:", len(kf["findings"]))
