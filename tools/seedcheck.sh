#!/bin/sh
# usage: tools/seedcheck.sh <id> "<props>" — apply seeded/<id>/patch.diff to /repo, run checks, undo
cd "$(dirname "$0")/.." || exit 2
id=$1; props=$2
git -C /repo apply /verif/seeded/$id/patch.diff || { echo "patch does not apply to /repo"; exit 3; }
for p in $props; do echo "== $id: check $p:"; ./check $p 2>&1 | grep -v KNOWN-FINDING | tail -1; done
git -C /repo checkout -- .
git -C /repo status --short | head -3
