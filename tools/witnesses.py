"""Hand-made witness projects for the defects of DESIGN §8 (scheduler part).  `python -m tools.witnesses`
writes findings/Fxx.json (AST + rendered text + which oracle must fail on the pinned code)."""
import json
import os
import sys

ROOT = os.path.dirname(os.path.dirname(os.path.abspath(__file__)))
sys.path.insert(0, ROOT)
from harness import render  # noqa: E402

S = 1736121600  # 2025-01-06 00:00 UTC, a Monday
H = 3600
D = 86400


def T(id, **kw):
    d = {"id": id}
    d.update(kw)
    return d


def dep(target, ref=None, gap=None, onstart=False):
    return {"target": target, "ref": ref or target, "gap": gap, "onstart": onstart}


def P(**kw):
    d = {"start": S, "dur": [2, "w"], "G": 3600}
    d.update(kw)
    return d


R = lambda id, **kw: dict({"id": id}, **kw)  # noqa: E731

W = {}
W["F1"] = ("C01", P(resources=[R("r")], tasks=[T("a", effort=["20", "min"], alloc=["r"], prio=900),
                                                T("b", effort=["30", "min"], alloc=["r"], prio=800),
                                                T("c", effort=["30", "min"], alloc=["r"], prio=700)]))
W["F1b"] = ("C06", P(resources=[R("r")], tasks=[T("a", effort=["20", "min"], alloc=["r"]),
                                                 T("b", effort=["30", "min"], alloc=["r"], deps=[dep("a")])]))
W["F2"] = ("C03", P(resources=[R("r1"), R("r2")], tasks=[T("a", effort=["90", "min"], alloc=["r1", "r2"], prio=900),
                                                         T("b", effort=["1", "h"], alloc=["r1"], prio=100)]))
W["F3"] = ("C02", P(resources=[R("r", leaves=[["annual", S, None]])], tasks=[T("a", effort=["4", "h"], alloc=["r"])]))
W["F3v"] = ("C02", P(resources=[R("r", vacations=[[S, None]])], tasks=[T("a", effort=["4", "h"], alloc=["r"])]))
W["F4"] = ("C02", P(resources=[R("r", wh=[{"days": ["mon"], "ranges": [[22 * 60, 6 * 60]]}])],
                    tasks=[T("a", effort=["6", "h"], alloc=["r"])]))
W["F5"] = ("C02", P(leaves=[["holiday", S + D, None]], resources=[R("r"), R("s")],
                    tasks=[T("a", effort=["20", "min"], alloc=["r"]),
                           T("b", effort=["2", "h"], alloc=["s"], deps=[dep("a", gap="24h")])]))
W["F6"] = ("C02", P(resources=[R("r", wh=[{"days": ["mon", "tue", "wed", "thu", "fri"], "ranges": [[8 * 60 + 13, 11 * 60 + 59]]}])],
                    tasks=[T("a", effort=["5", "h"], alloc=["r"])]))
W["F7"] = ("C05", P(dur=[1, "w"], resources=[R("r", limits={"dailymax": "2h"})], tasks=[T("a", effort=["60", "h"], alloc=["r"])]))
W["F9"] = ("C04", P(resources=[R("r"), R("s")],
                    tasks=[T("pre", effort=["16", "h"], alloc=["r"]),
                           T("box", start=S, children=[T("k", effort=["2", "h"], alloc=["s"], deps=[dep("pre", ref="!!pre")])])]))
W["F11"] = ("C04", P(resources=[R("r"), R("s")],
                     tasks=[T("a", effort=["2", "h"], alloc=["r"], prec=[dep("b", gap="3h")]),
                            T("b", effort=["2", "h"], alloc=["s"])]))
W["F12"] = ("C10", P(resources=[R("r")],
                     tasks=[T("gp", children=[T("pp", children=[T("x", effort=["2", "h"], alloc=["r"])])]),
                            T("h", effort=["2", "h"], alloc=["r"], prio=900, deps=[dep("gp")]),
                            T("l", effort=["2", "h"], alloc=["r"], prio=100)]))
W["F13"] = ("C03", P(resources=[R("r", eff="0.7", wh=[{"days": ["mon", "tue", "wed", "thu", "fri"], "ranges": [[9 * 60, 12 * 60]]}])],
                     tasks=[T("a", effort=["2.1", "h"], alloc=["r"])]))
W["F24"] = ("C04", P(sched="alap", resources=[R("r"), R("s")],
                     tasks=[T("a", effort=["2", "h"], alloc=["r"]),
                            T("b", effort=["2", "h"], alloc=["s"], deps=[dep("a", gap="3h")], end=S + 4 * D + 17 * H)]))
W["F25"] = ("C06", P(resources=[R("r")], tasks=[T("a", effort=["20", "min"], alloc=["r"]),
                                                 T("m", milestone=True, deps=[dep("a")])]))
W["F27"] = ("C10", P(resources=[R("r")],
                     tasks=[T("gp", end=S + 11 * D, children=[T("pp", children=[T("x", effort=["2", "h"], alloc=["r"])])])]))
W["F8"] = ("C14", P(start=1796342400, dur=[12, "w"], resources=[R("r", limits={"weeklymax": "10h"})],
                    tasks=[T("a", effort=["60", "h"], alloc=["r"])]))   # 2026-12-04

W["F31"] = ("C03", P(resources=[R("grp", limits={"dailymax": "3h"}, children=[R("r0"), R("r1")])],
                     tasks=[T("t", effort=["4", "h"], alloc=["r0", "r1"])]))
W["F32"] = ("C03", P(resources=[R("r0"), R("r1")],
                     tasks=[T("a", effort=["20", "min"], alloc=["r0"], prio=900),
                            T("t", effort=["2", "h"], alloc=["r0", "r1"], prio=100)]))

if __name__ == "__main__":
    os.makedirs(os.path.join(ROOT, "findings"), exist_ok=True)
    for k, (prop, ast) in W.items():
        with open(os.path.join(ROOT, "findings", f"{k}.json"), "w") as f:
            json.dump({"id": k, "property": prop, "stream": "project", "ast": ast, "text": render.render(ast)}, f, indent=1)
    print(len(W), "witnesses written")
