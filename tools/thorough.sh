#!/bin/sh
cd "$(dirname "$0")/.." || exit 2
[ -n "$VP_RUN_REPO" ] && export VERIF_REPO="$VP_RUN_REPO"
(cd lean && lake build >/dev/null 2>&1)
for p in $1; do
  s=$(date +%s)
  out=$(./check $p --tier thorough 2>&1 | grep -v KNOWN-FINDING | tail -1)
  echo "$p $(( $(date +%s) - s ))s: $out"
done
