#!/bin/sh
# usage: tools/harmlessmatrix.sh "<seeds>" — every behaviour-preserving change of harmless/<id>/ against the quick checks of the
# properties listed in its meta.json ("checks"), on the repo snapshot of a `vp run --with-repo` (or on $VERIF_REPO); anything
# that is not OK is a false alarm of the machinery.  Never patches /repo.
cd "$(dirname "$0")/.." || exit 2
repo=${VP_RUN_REPO:-${VERIF_REPO:-}}
[ -n "$repo" ] || { echo "needs VP_RUN_REPO or VERIF_REPO (never patches /repo)"; exit 2; }
export VERIF_REPO="$repo"
(cd lean && lake build >/dev/null 2>&1)
for d in ${2:-harmless/*/}; do
  name=$(basename "$d")
  props=$(python3 -c "import json,sys; print(' '.join(json.load(open('$d/meta.json')).get('checks', ['$name'])))")
  git -C "$repo" apply "$PWD/$d/patch.diff" 2>/dev/null || { echo "$name: patch does not apply"; continue; }
  for s in $1; do for p in $props; do
    out=$(VERIF_SEED=$s ./check $p 2>&1 | grep -E '^(OK|VIOLATION|FAULT)' | tail -1)
    echo "$name seed=$s $p: $out"
  done; done
  git -C "$repo" checkout -- . ; git -C "$repo" clean -fdq
done
echo harmless-done
