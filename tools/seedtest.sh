#!/bin/sh
# usage: tools/seedtest.sh <name e.g. C02 or C02b> "<props to run>" [dir with patch.diff demo meta.json] — confirm a seeded change in a fresh worktree, then run checks against it
cd "$(dirname "$0")/.." || exit 2
id=$1; props=$2; out=${3:-/tmp/seed_${id}_out}; wt=/tmp/st_$id
mkdir -p seeded/$id
[ -f $out/patch.diff ] && cp $out/patch.diff $out/demo.py $out/demo $out/meta.json seeded/$id/ 2>/dev/null
if [ -f seeded/$id/demo ] && head -1 seeded/$id/demo | grep -q python; then rundemo() { PYTHONPATH=$wt timeout 900 /venv/bin/python /verif/seeded/$id/demo $wt; }
elif [ -f seeded/$id/demo ]; then rundemo() { chmod +x /verif/seeded/$id/demo; PYTHONPATH=$wt timeout 900 /verif/seeded/$id/demo $wt; }
else rundemo() { PYTHONPATH=$wt timeout 900 /venv/bin/python /verif/seeded/$id/demo.py; }; fi
git -C /repo worktree remove --force $wt 2>/dev/null
git -C /repo worktree add -q --detach $wt HEAD || exit 3
echo "== demo WITHOUT change:"; (cd $wt && rundemo >/tmp/seed_demo_wo.txt 2>&1; echo "exit=$?"; tail -2 /tmp/seed_demo_wo.txt)
git -C $wt apply /verif/seeded/$id/patch.diff || { echo "patch does not apply"; git -C /repo worktree remove --force $wt; exit 3; }
echo "== demo WITH change:";  (cd $wt && rundemo >/tmp/seed_demo_with.txt 2>&1; echo "exit=$?"; tail -3 /tmp/seed_demo_with.txt)
echo "== suite WITH change:"; (cd $wt && PYTHONPATH=$wt /venv/bin/python -m pytest -q -p no:cacheprovider -n 8 2>&1 | tail -1)
git -C /repo worktree remove --force $wt
git -C /repo apply /verif/seeded/$id/patch.diff || { echo "patch does not apply to /repo"; exit 3; }
for p in $props; do echo "== check $p:"; ./check $p 2>&1 | grep -v KNOWN-FINDING | tail -2; done
git -C /repo checkout -- .
git -C /repo status --short | head -3
