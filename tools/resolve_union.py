"""resolve git merge conflicts in import-list files by keeping both sides"""
import re, subprocess, sys
files = subprocess.run(["git", "diff", "--name-only", "--diff-filter=U"], capture_output=True, text=True, cwd="/verif").stdout.split()
for f in files:
    s = open("/verif/" + f).read()
    s = re.sub(r"<<<<<<< HEAD\n(.*?)=======\n(.*?)>>>>>>> [^\n]*\n", lambda m: m.group(1) + m.group(2), s, flags=re.S)
    open("/verif/" + f, "w").write(s)
    print("resolved", f)
