"""run the property oracles on the witness projects against /repo in-process (triage helper)"""
import json, sys, os
sys.path.insert(0, '/verif')
from harness import implops_sched as S, oracles as O
from tools.witnesses import W
only = sys.argv[1:]
for k, (prop, ast) in W.items():
    if only and k not in only: continue
    from harness import render
    obs = S.sched({"text": render.render(ast)})
    if 'error' in obs: print(k, obs); continue
    sc = obs['scenarios'][0]; sc["_end"] = obs["end"]
    view = O.scenario_view(ast, sc)
    res = {'C01': O.c01(ast, sc), 'C02': O.c02(ast, sc), 'C03': O.c03(ast, sc, view), 'C04': O.c04(ast, sc, view), 'C05': O.c05(ast, sc), 'C06': O.c06(ast, sc, view), 'C08': O.c08(ast, sc, view), 'C10': O.c10(ast, sc)}
    print(k, prop, {a: b[:1] for a, b in res.items() if b} or "clean",
          {t: (o['start'] and o['start'] - ast['start'], o['end'] and o['end'] - ast['start']) for t, o in sc['tasks'].items()} if '-v' in only else '')
