#!/bin/sh
# usage: tools/replaymatrix.sh "<glob of seeded dirs, e.g. seeded/*g>" — for every seeded change: run its property's quick check on the
# patched repo snapshot, then replay the reported file on the patched tree (must exit 1) and on the clean tree (must exit 0).
# Needs VP_RUN_REPO or VERIF_REPO (never patches /repo).
cd "$(dirname "$0")/.." || exit 2
repo=${VP_RUN_REPO:-${VERIF_REPO:-}}
[ -n "$repo" ] || { echo "needs VP_RUN_REPO or VERIF_REPO"; exit 2; }
export VERIF_REPO="$repo"
(cd lean && lake build >/dev/null 2>&1)
for d in $1; do
  name=$(basename "$d")
  prop=$(python3 -c "import json; m=json.load(open('$d/meta.json')); print((m.get('properties') or [m.get('property')])[0])")
  git -C "$repo" apply "$PWD/$d/patch.diff" 2>/dev/null || { echo "$name: patch does not apply"; continue; }
  line=$(./check $prop 2>&1 | grep -E '^(OK|VIOLATION|FAULT)' | tail -1)
  rp=$(echo "$line" | sed -n 's/.*replay=\([^ ]*\).*/\1/p')
  if [ -z "$rp" ]; then echo "$name $prop: not detected here ($line)"; git -C "$repo" checkout -- . ; git -C "$repo" clean -fdq; continue; fi
  cp "$rp" /var/tmp/replaymatrix_$$.json
  ./check $prop --replay /var/tmp/replaymatrix_$$.json >/dev/null 2>&1; with=$?
  git -C "$repo" checkout -- . ; git -C "$repo" clean -fdq
  ./check $prop --replay /var/tmp/replaymatrix_$$.json >/dev/null 2>&1; clean=$?
  case "$line" in *no-failing-input-found*) kind=nfi;; *) kind=fi;; esac
  echo "$name $prop [$kind]: replay with change exit=$with, on clean tree exit=$clean"
  rm -f /var/tmp/replaymatrix_$$.json
done
echo replay-done
