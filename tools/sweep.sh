#!/bin/sh
# run quick checks for the given properties over several seeds; print anything that is not OK
cd "$(dirname "$0")/.." || exit 2
[ -n "$VP_RUN_REPO" ] && export VERIF_REPO="$VP_RUN_REPO"
(cd lean && lake build >/dev/null 2>&1)
props="$1"; seeds="$2"
for s in $seeds; do for p in $props; do
  out=$(VERIF_SEED=$s ./check $p 2>&1 | grep -v KNOWN-FINDING | tail -1)
  case "$out" in OK*) ;; *) echo "seed=$s $p: $out"; cp -r replays replays_seed${s}_$p 2>/dev/null;; esac
done; done
echo sweep-done
