#!/venv/bin/python
"""Line coverage of the scheduler core under the generators of the scheduler properties (one-off measurement tool).
usage: /venv/bin/python tools/covgaps.py [n_per_knobset]  — prints, per anchored source file, the functions with uncovered lines."""
import ast
import collections
import os
import random
import sys

ROOT = os.path.dirname(os.path.dirname(os.path.abspath(__file__)))
sys.path.insert(0, ROOT)
REPO = os.environ.get("VERIF_REPO", "/repo")
sys.path.insert(0, REPO)
# pure-Python paths: the accelerated twins are covered by C13
for m in ("scriptplan._cython.scoreboard_cy", "scriptplan._cython.time_utils_cy", "scriptplan._cython.working_hours_cy"):
    sys.modules[m] = None

from harness import gen, render  # noqa: E402
from harness.props import sched_props  # noqa: E402

FILES = ["scriptplan/core/task_scenario.py", "scriptplan/core/project.py", "scriptplan/core/resource_scenario.py",
         "scriptplan/core/limits.py", "scriptplan/core/working_hours.py", "scriptplan/scheduler/scoreboard.py"]
targets = {os.path.join(REPO, f): f for f in FILES}
hit = collections.defaultdict(set)


def tracer(frame, event, arg):
    fn = frame.f_code.co_filename
    if fn not in targets:
        return None

    def local(frame, event, arg):
        if event == "line":
            hit[fn].add(frame.f_lineno)
        return local
    hit[fn].add(frame.f_lineno)
    return local


def main():
    n = int(sys.argv[1]) if len(sys.argv) > 1 else 60
    rng = random.Random(7)
    from scriptplan.parser.tjp_parser import ProjectFileParser
    asts = []
    for prop, cfg in sched_props.CFG.items():
        for w, k in cfg["knobs"]:
            asts += [gen.gen_project(rng, k) for _ in range(n)]
    sys.settrace(tracer)
    ok = err = 0
    for p in asts:
        try:
            ProjectFileParser().parse(render.render(p))
            ok += 1
        except Exception:
            err += 1
    sys.settrace(None)
    print(f"{ok} projects scheduled, {err} raised")
    for path, rel in targets.items():
        tree = ast.parse(open(path).read())
        lines_exec = set()
        for node in ast.walk(tree):
            if isinstance(node, ast.stmt) and not isinstance(node, (ast.FunctionDef, ast.ClassDef, ast.Import, ast.ImportFrom)):
                if not (isinstance(node, ast.Expr) and isinstance(node.value, ast.Constant)):
                    lines_exec.add(node.lineno)
        print(f"\n== {rel}: {len(hit[path] & lines_exec)}/{len(lines_exec)} statements reached")
        for node in ast.walk(tree):
            if isinstance(node, ast.FunctionDef):
                body = {n.lineno for n in ast.walk(node) if isinstance(n, ast.stmt) and n is not node
                        and not (isinstance(n, ast.Expr) and isinstance(n.value, ast.Constant))}
                miss = sorted(body - hit[path])
                if body and miss:
                    tag = "NEVER CALLED" if not (body & hit[path]) else f"{len(miss)}/{len(body)} missed: {miss[:14]}"
                    print(f"   {node.name}: {tag}")


main()
